#!/usr/bin/env python3
"""
data2lean.py — regenerate lean/TamocV/Gen/UnitsData.lean from /repo's working tree (C15).

What is read (with `ast` / as text; tamoc is never imported):
  * the `convert` dictionary of `tamoc/ambient.py::convert_units`
        -> `ambientQ` (exact rationals) and `ambient` (generic in [Num α], for the driver);
  * the unit-recognition chain of `tamoc/chemical_properties.py::convert_units`
    (the `if read_units[variable].find('(…)') >= 0 [or read_units[variable] == '…']:` blocks)
        -> `chemRules` (pattern, alternative, the assigned expression transcribed as a Lean
           function of the value x and the molecular weight M, new unit) and `chemRulesQ`
           (the same expression reduced by this script to an affine form a·x(·M) + b over ℚ;
           the reduction is re-proved in Lean on every build: Props.C15.chem_rules_affine);
  * `tamoc/data/{ChemData,BioData,PJData}.csv`, parsed here independently of
    `chemical_properties.load_data` following the file format documented in that module's
    docstring -> `chemKeys/chemUnits/chemRows` … as exact rationals.
Decimal strings are parsed as rationals (never through floats).

Anything outside the expected shape raises `Refused` (exit status 3, nothing written, a stale
file is removed): the Lean build of every theorem that depends on the table then fails — a
broken tie, never a silent skip.

Usage: data2lean.py [--repo /repo] [--out /verif/lean/TamocV/Gen]
Also importable (harness/c15.py uses `load_tables(repo)` for its independent CSV parse).
Stdlib only.
"""
import os
import sys
import ast
import argparse
from decimal import Decimal
from fractions import Fraction

HERE = os.path.dirname(os.path.abspath(__file__))


class Refused(Exception):
    pass


# ----------------------------------------------------------------------------------------
# exact numbers
# ----------------------------------------------------------------------------------------

def frac_of_text(txt):
    """exact rational of a decimal literal text ('1.e4', '9.869233e-16', '0.', '-9999')"""
    t = txt.strip().replace('_', '')
    try:
        return Fraction(Decimal(t))
    except Exception:
        raise Refused('not a decimal literal: %r' % txt)


def dec_parts(q):
    """(mant, k) with q == mant / 10**k, k >= 0 minimal, or None if q is not a terminating decimal"""
    q = Fraction(q)
    d = q.denominator
    k2 = k5 = 0
    while d % 2 == 0:
        d //= 2
        k2 += 1
    while d % 5 == 0:
        d //= 5
        k5 += 1
    if d != 1:
        return None
    k = max(k2, k5)
    mant = q.numerator * 10 ** k // q.denominator
    return mant, k


def lean_rat(q):
    q = Fraction(q)
    return '(mkRat (%d) %d)' % (q.numerator, q.denominator)


def lean_num(q):
    """generic [Num α] literal denoting exactly q (terminating decimals only)"""
    q = Fraction(q)
    neg = q < 0
    p = dec_parts(abs(q))
    if p is None:
        raise Refused('non-terminating literal %s' % q)
    mant, k = p
    s = '%d' % mant if k == 0 else '%de-%d' % (mant, k)
    return '(-%s)' % s if neg else s


def lean_str(s):
    out = '"'
    for ch in s:
        if ch == '"' or ch == '\\':
            out += '\\' + ch
        elif ord(ch) < 32 or ord(ch) > 126:
            out += '\\u{%x}' % ord(ch)
        else:
            out += ch
    return out + '"'


# ----------------------------------------------------------------------------------------
# python expressions: exact value / affine form / Lean transcription
# ----------------------------------------------------------------------------------------

class Lin:
    """polynomial c0 + cx·x + cM·M + cxM·x·M with rational coefficients (all the chain needs)"""
    __slots__ = ('c',)

    def __init__(self, c):
        self.c = {k: Fraction(v) for k, v in c.items() if v != 0}

    @staticmethod
    def const(q):
        return Lin({'': q})

    def is_const(self):
        return all(k == '' for k in self.c)

    def value(self):
        return self.c.get('', Fraction(0))

    def add(self, o, sign=1):
        c = dict(self.c)
        for k, v in o.c.items():
            c[k] = c.get(k, 0) + sign * v
        return Lin(c)

    def mul(self, o):
        c = {}
        for k1, v1 in self.c.items():
            for k2, v2 in o.c.items():
                k = ''.join(sorted(k1 + k2))
                if k.count('x') > 1 or k.count('M') > 1:
                    raise Refused('conversion expression is not affine in the value / linear in M')
                c[k] = c.get(k, 0) + v1 * v2
        return Lin(c)


def const_text(node, src):
    seg = ast.get_source_segment(src, node)
    if seg is None:
        raise Refused('no source text for literal at line %d' % node.lineno)
    return seg


class ExprReader:
    """reads an arithmetic expression; `sym(node)` maps Subscript/Name leaves to 'x' / 'M' / None"""

    def __init__(self, src, sym):
        self.src = src
        self.sym = sym

    def lin(self, n):
        if isinstance(n, ast.Constant) and isinstance(n.value, (int, float)) and not isinstance(n.value, bool):
            return Lin.const(frac_of_text(const_text(n, self.src)))
        if isinstance(n, ast.UnaryOp) and isinstance(n.op, ast.USub):
            return Lin.const(0).add(self.lin(n.operand), -1)
        if isinstance(n, ast.UnaryOp) and isinstance(n.op, ast.UAdd):
            return self.lin(n.operand)
        if isinstance(n, ast.BinOp):
            if isinstance(n.op, ast.Pow):
                b, e = self.lin(n.left), n.right
                if not (isinstance(e, ast.Constant) and isinstance(e.value, int) and 0 <= e.value <= 12 and b.is_const()):
                    raise Refused('power other than constant**small-int at line %d' % n.lineno)
                return Lin.const(b.value() ** e.value)
            a, b = self.lin(n.left), self.lin(n.right)
            if isinstance(n.op, ast.Add):
                return a.add(b)
            if isinstance(n.op, ast.Sub):
                return a.add(b, -1)
            if isinstance(n.op, ast.Mult):
                return a.mul(b)
            if isinstance(n.op, ast.Div):
                if not b.is_const() or b.value() == 0:
                    raise Refused('division by a non-constant or zero at line %d' % n.lineno)
                return a.mul(Lin.const(1 / b.value()))
            raise Refused('operator %s at line %d' % (type(n.op).__name__, n.lineno))
        s = self.sym(n)
        if s == 'x':
            return Lin({'x': 1})
        if s == 'M':
            return Lin({'M': 1})
        raise Refused('unexpected term %s at line %d' % (ast.dump(n)[:80], getattr(n, 'lineno', 0)))

    def lean(self, n):
        """the same expression, operation by operation, as a Lean term over [Num α]"""
        if isinstance(n, ast.Constant) and isinstance(n.value, (int, float)) and not isinstance(n.value, bool):
            return lean_num(frac_of_text(const_text(n, self.src)))
        if isinstance(n, ast.UnaryOp) and isinstance(n.op, ast.USub):
            return '(-%s)' % self.lean(n.operand)
        if isinstance(n, ast.UnaryOp) and isinstance(n.op, ast.UAdd):
            return self.lean(n.operand)
        if isinstance(n, ast.BinOp):
            if isinstance(n.op, ast.Pow):
                e = n.right
                if not (isinstance(e, ast.Constant) and isinstance(e.value, int) and 0 <= e.value <= 12):
                    raise Refused('power other than **small-int at line %d' % n.lineno)
                return '(Num.npow %s %d)' % (self.lean(n.left), e.value)
            op = {ast.Add: '+', ast.Sub: '-', ast.Mult: '*', ast.Div: '/'}.get(type(n.op))
            if op is None:
                raise Refused('operator %s at line %d' % (type(n.op).__name__, n.lineno))
            return '(%s %s %s)' % (self.lean(n.left), op, self.lean(n.right))
        s = self.sym(n)
        if s in ('x', 'M'):
            return s
        raise Refused('unexpected term %s' % ast.dump(n)[:80])


def find_function(tree, name):
    for n in tree.body:
        if isinstance(n, ast.FunctionDef) and n.name == name:
            return n
    raise Refused('function %s not found' % name)


# ----------------------------------------------------------------------------------------
# ambient.convert_units : the `convert` dict
# ----------------------------------------------------------------------------------------

def read_ambient_table(repo, strict=True):
    path = os.path.join(repo, 'tamoc', 'ambient.py')
    src = open(path).read()
    fn = find_function(ast.parse(src), 'convert_units')
    dicts = [s for s in fn.body if isinstance(s, ast.Assign) and len(s.targets) == 1
             and isinstance(s.targets[0], ast.Name) and s.targets[0].id == 'convert']
    if len(dicts) != 1 or not isinstance(dicts[0].value, ast.Dict):
        raise Refused('ambient.convert_units: expected exactly one `convert = {…}` literal')
    rd = ExprReader(src, lambda n: None)
    rows = []
    seen = set()
    for k, v in zip(dicts[0].value.keys, dicts[0].value.values):
        if not (isinstance(k, ast.Constant) and isinstance(k.value, str)):
            raise Refused('ambient convert: non-string key')
        if not (isinstance(v, (ast.List, ast.Tuple)) and len(v.elts) == 3
                and isinstance(v.elts[2], ast.Constant) and isinstance(v.elts[2].value, str)):
            raise Refused('ambient convert[%r]: expected [factor, offset, unit]' % k.value)
        f, o = rd.lin(v.elts[0]), rd.lin(v.elts[1])
        if not (f.is_const() and o.is_const()):
            raise Refused('ambient convert[%r]: non-constant entry' % k.value)
        if k.value in seen:
            # a later duplicate key silently overrides the earlier one in Python
            rows = [r for r in rows if r[0] != k.value]
        seen.add(k.value)
        rows.append((k.value, f.value(), o.value(), v.elts[2].value))
    # the formula applied to every column:  out = data * convert[u][0] + convert[u][1]
    loops = [s for s in fn.body if isinstance(s, ast.For)]
    ok = False
    for lp in loops:
        for t in ast.walk(lp):
            if isinstance(t, ast.Try):
                a = t.body[0]
                txt = ast.get_source_segment(src, a.value) if isinstance(a, ast.Assign) else ''
                norm = ''.join((txt or '').split()).replace('\\', '')
                if norm == 'data[:,i]*convert[units[i]][0]+convert[units[i]][1]':
                    ok = True
    if not ok and strict:
        raise Refused('ambient.convert_units: the per-column formula is no longer `data[:,i] * convert[units[i]][0] + convert[units[i]][1]`')
    return rows


# ----------------------------------------------------------------------------------------
# chemical_properties.convert_units : the chain of `if` blocks
# ----------------------------------------------------------------------------------------

def _is_read_units_var(n):
    return (isinstance(n, ast.Subscript) and isinstance(n.value, ast.Name) and n.value.id == 'read_units'
            and isinstance(n.slice, ast.Name) and n.slice.id == 'variable')


def _chem_sym(n):
    # data[chemical][variable] -> x ; data[chemical]['M'] -> M
    if (isinstance(n, ast.Subscript) and isinstance(n.value, ast.Subscript) and isinstance(n.value.value, ast.Name)
            and n.value.value.id == 'data' and isinstance(n.value.slice, ast.Name) and n.value.slice.id == 'chemical'):
        if isinstance(n.slice, ast.Name) and n.slice.id == 'variable':
            return 'x'
        if isinstance(n.slice, ast.Constant) and n.slice.value == 'M':
            return 'M'
    return None


def _find_test(t):
    """read_units[variable].find('<pat>') >= 0   ->  pat"""
    if (isinstance(t, ast.Compare) and len(t.ops) == 1 and isinstance(t.ops[0], ast.GtE)
            and isinstance(t.left, ast.Call) and isinstance(t.left.func, ast.Attribute) and t.left.func.attr == 'find'
            and _is_read_units_var(t.left.func.value) and len(t.left.args) == 1
            and isinstance(t.left.args[0], ast.Constant) and isinstance(t.left.args[0].value, str)
            and isinstance(t.comparators[0], ast.Constant) and t.comparators[0].value == 0):
        return t.left.args[0].value
    return None


def _eq_test(t):
    if (isinstance(t, ast.Compare) and len(t.ops) == 1 and isinstance(t.ops[0], ast.Eq) and _is_read_units_var(t.left)
            and isinstance(t.comparators[0], ast.Constant) and isinstance(t.comparators[0].value, str)):
        return t.comparators[0].value
    return None


def read_chem_chain(repo):
    path = os.path.join(repo, 'tamoc', 'chemical_properties.py')
    src = open(path).read()
    fn = find_function(ast.parse(src), 'convert_units')
    outer = [s for s in fn.body if isinstance(s, ast.For) and isinstance(s.target, ast.Name) and s.target.id == 'chemical']
    if len(outer) != 1 or len(outer[0].body) != 1 or not isinstance(outer[0].body[0], ast.For):
        raise Refused('chemical_properties.convert_units: expected `for chemical in data: for variable in read_units:`')
    inner = outer[0].body[0]
    if not (isinstance(inner.target, ast.Name) and inner.target.id == 'variable'):
        raise Refused('chemical_properties.convert_units: inner loop variable')
    rd = ExprReader(src, _chem_sym)
    rules = []
    for st in inner.body:
        if not isinstance(st, ast.If) or st.orelse:
            raise Refused('chemical_properties.convert_units: statement at line %d is not a plain `if` block' % st.lineno)
        t = st.test
        pat, alt = None, None
        if isinstance(t, ast.BoolOp) and isinstance(t.op, ast.Or) and len(t.values) == 2:
            pat, alt = _find_test(t.values[0]), _eq_test(t.values[1])
            if pat is None or alt is None:
                raise Refused('unit test at line %d' % st.lineno)
        else:
            pat = _find_test(t)
            if pat is None:
                raise Refused('unit test at line %d' % st.lineno)
        if len(st.body) != 2:
            raise Refused('unit block at line %d: expected value assignment + unit assignment' % st.lineno)
        a0, a1 = st.body
        if not (isinstance(a0, ast.Assign) and len(a0.targets) == 1 and _chem_sym(a0.targets[0]) == 'x'):
            raise Refused('unit block at line %d: first statement must assign data[chemical][variable]' % st.lineno)
        if not (isinstance(a1, ast.Assign) and len(a1.targets) == 1 and isinstance(a1.targets[0], ast.Subscript)
                and isinstance(a1.targets[0].value, ast.Name) and a1.targets[0].value.id == 'units'
                and isinstance(a1.value, ast.Constant) and isinstance(a1.value.value, str)):
            raise Refused('unit block at line %d: second statement must assign units[variable]' % st.lineno)
        lin = rd.lin(a0.value)
        usesM = 'Mx' in lin.c
        if usesM and ('x' in lin.c or 'M' in lin.c):
            raise Refused('unit block at line %d: mixed x and x·M terms' % st.lineno)
        if 'M' in lin.c:
            raise Refused('unit block at line %d: a term in M alone' % st.lineno)
        a = lin.c.get('Mx' if usesM else 'x', Fraction(0))
        b = lin.c.get('', Fraction(0))
        rules.append({'pat': pat, 'alt': alt, 'a': a, 'b': b, 'usesM': usesM, 'out': a1.value.value,
                      'lean': rd.lean(a0.value), 'line': st.lineno})
    if not rules:
        raise Refused('chemical_properties.convert_units: no unit rule found')
    return rules


# ----------------------------------------------------------------------------------------
# CSV files — independent parse following the documented format
#   "header rows are denoted by %, the last row of pure text is taken as the variable names, and
#    the last row with () is taken as the units; columns: key name followed by numerical values"
# ----------------------------------------------------------------------------------------

def read_csv(path):
    raw = open(path, 'rb').read().decode('utf-8-sig')
    keys = units = None
    rows = []
    for ln in raw.replace('\r\n', '\n').replace('\r', '\n').split('\n'):
        if not ln.strip():
            continue
        cells = [c.strip() for c in ln.strip().split(',')]
        if '%' in ln:
            body = [c for c in cells if c != '%']
            while body and body[-1] == '':
                body.pop()
            if any('(' in c for c in body):
                units = body
            elif len(body) > 1 and any(c for c in body[1:]):
                keys = body
            continue
        while cells and cells[-1] == '':
            cells.pop()
        if not cells:
            continue
        name, vals = cells[0], cells[1:]
        rows.append((name, [frac_of_text(v) for v in vals], vals))
    if keys is None or units is None:
        raise Refused('%s: header rows (names / units) not found' % path)
    if len(keys) != len(units):
        raise Refused('%s: %d names but %d units' % (path, len(keys), len(units)))
    for name, vals, _t in rows:
        if len(vals) != len(keys) - 1:
            raise Refused('%s: row %s has %d values for %d columns' % (path, name, len(vals), len(keys) - 1))
    return {'keys': keys[1:], 'units': units[1:], 'rows': [(n, v) for n, v, _t in rows],
            'text': {n: t for n, _v, t in rows}}


def load_tables(repo, strict=True):
    """strict=False: still return the parsed ambient table when the per-column FORMULA of convert_units is not the documented
    `value * factor + offset` (used by the failing-input search of C15 after the translator refused the source)"""
    d = os.path.join(repo, 'tamoc', 'data')
    return {
        'ambient': read_ambient_table(repo, strict),
        'chem_rules': read_chem_chain(repo),
        'chem': read_csv(os.path.join(d, 'ChemData.csv')),
        'bio': read_csv(os.path.join(d, 'BioData.csv')),
        'pj': read_csv(os.path.join(d, 'PJData.csv')),
    }


# ----------------------------------------------------------------------------------------
# Lean output
# ----------------------------------------------------------------------------------------

HEADER = """/- GENERATED by /verif/translate/data2lean.py from tamoc/ambient.py (convert_units),
   tamoc/chemical_properties.py (convert_units) and tamoc/data/{Chem,Bio,PJ}Data.csv — do not edit.
   Regenerated on every check; the theorems of TamocV/Props/C15.lean mention these tables directly. -/
import TamocV.Num
set_option linter.unusedVariables false

namespace TamocV.Gen.UnitsData

/-- one entry of the `convert` dict of ambient.convert_units:  out = data * factor + offset -/
structure UnitRow (α : Type) where
  unit : String
  factor : α
  offset : α
  out : String

/-- one `if` block of chemical_properties.convert_units, reduced to  a·x(·M) + b  over ℚ -/
structure ChemRuleQ where
  pat : String
  hasAlt : Bool
  alt : String
  a : Rat
  b : Rat
  usesM : Bool
  out : String
  deriving DecidableEq

/-- the same block with the assigned expression transcribed operation by operation -/
structure ChemRule (α : Type) where
  pat : String
  hasAlt : Bool
  alt : String
  f : α → α → α
  out : String

"""


def emit(t):
    o = [HEADER]
    o.append('/-- `convert` of ambient.convert_units, source order: (unit, factor, offset, standard unit) -/\n')
    o.append('def ambientQ : List (UnitRow Rat) := [\n')
    o.append(',\n'.join('  ⟨%s, %s, %s, %s⟩' % (lean_str(u), lean_rat(f), lean_rat(b), lean_str(s)) for u, f, b, s in t['ambient']))
    o.append(']\n\n')
    o.append('def ambient {α : Type} [Num α] : List (UnitRow α) := [\n')
    o.append(',\n'.join('  ⟨%s, %s, %s, %s⟩' % (lean_str(u), lean_num(f), lean_num(b), lean_str(s)) for u, f, b, s in t['ambient']))
    o.append(']\n\n')
    o.append('/-- the `if` chain of chemical_properties.convert_units, source order -/\n')
    o.append('def chemRulesQ : List ChemRuleQ := [\n')
    o.append(',\n'.join('  ⟨%s, %s, %s, %s, %s, %s, %s⟩' % (
        lean_str(r['pat']), 'true' if r['alt'] is not None else 'false', lean_str(r['alt'] or ''),
        lean_rat(r['a']), lean_rat(r['b']), 'true' if r['usesM'] else 'false', lean_str(r['out'])) for r in t['chem_rules']))
    o.append(']\n\n')
    o.append('def chemRules {α : Type} [Num α] : List (ChemRule α) := [\n')
    o.append(',\n'.join('  /- l.%d -/ ⟨%s, %s, %s, fun x M => %s, %s⟩' % (r['line'],
        lean_str(r['pat']), 'true' if r['alt'] is not None else 'false', lean_str(r['alt'] or ''),
        r['lean'], lean_str(r['out'])) for r in t['chem_rules']))
    o.append('\n]\n\n')
    for tag, fname in (('chem', 'ChemData.csv'), ('bio', 'BioData.csv'), ('pj', 'PJData.csv')):
        c = t[tag]
        o.append('/-- tamoc/data/%s : column names, units, rows (compound, raw values) -/\n' % fname)
        o.append('def %sKeys : List String := [%s]\n' % (tag, ', '.join(lean_str(k) for k in c['keys'])))
        o.append('def %sUnits : List String := [%s]\n' % (tag, ', '.join(lean_str(k) for k in c['units'])))
        o.append('def %sRows : List (String × List Rat) := [\n' % tag)
        o.append(',\n'.join('  (%s, [%s])' % (lean_str(n), ', '.join(lean_rat(v) for v in vals)) for n, vals in c['rows']))
        o.append(']\n\n')
    o.append('end TamocV.Gen.UnitsData\n')
    return ''.join(o)


def write_if_changed(path, text):
    old = open(path).read() if os.path.exists(path) else None
    if old != text:
        with open(path, 'w') as f:
            f.write(text)


def write(repo, out):
    """entry point for translate/gen.py:  TARGETS['units'] = data2lean.write ; raises `Refused` (nothing written,
    a stale file is removed) when the source is outside the expected shape"""
    os.makedirs(out, exist_ok=True)
    target = os.path.join(out, 'UnitsData.lean')
    try:
        text = emit(load_tables(repo))
    except (Refused, SyntaxError, OSError, UnicodeError):
        try:
            os.remove(target)
        except OSError:
            pass
        raise
    write_if_changed(target, text)


def main():
    ap = argparse.ArgumentParser()
    ap.add_argument('--repo', default=os.environ.get('TAMOC_REPO', '/repo'))
    ap.add_argument('--out', default=os.path.join(HERE, '..', 'lean', 'TamocV', 'Gen'))
    a = ap.parse_args()
    try:
        write(a.repo, a.out)
    except (Refused, SyntaxError, OSError, UnicodeError) as e:
        sys.stderr.write('GEN-FAIL target=units: %s: %s\n' % (type(e).__name__, e))
        return 3
    return 0


if __name__ == '__main__':
    sys.exit(main())
