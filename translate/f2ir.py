"""
Fortran (free-form subset of tamoc/src/dbm_phys.f95, dbm_eos.f95) front end.

Strategy: a hand parser converts each subroutine into the *Python subset that py2ir.py
already understands* (one symbolic executor, two surface syntaxes), keeping what matters
for C08:

  * literal kinds: a real literal with a D exponent is a double; a real literal WITHOUT
    one (`288.15`, `1.0e-7`, `0.`) is a default-real (binary32) constant and becomes
    `f32("…")`, which py2ir turns into the exact rational value of its binary32 rounding;
  * `**` with an integer literal exponent is an integer power, anything else a real power;
  * intent(out) arguments become the returned values (in declaration order of the dummy
    argument list), the dimension argument `nc` is dropped (it is `len` of the first array);
  * `do i = 1, n` / `x(i)` are shifted to 0-based `for i in range(n)` / `x[i]`;
  * whole-array and `(:)` expressions become numpy-style broadcasting expressions;
  * identifiers are lower-cased (Fortran is case-insensitive).

Anything outside the subset raises Untranslatable (the tie is then broken loudly).
"""
import re
from ir import Untranslatable

INTRINSIC = {'exp': 'np.exp', 'log': 'np.log', 'log10': 'np.log10', 'sqrt': 'np.sqrt',
             'abs': 'np.abs', 'sin': 'np.sin', 'cos': 'np.cos', 'sum': 'np.sum',
             'ieee_is_nan': 'np.isnan', 'aimag': 'np.imag'}

TOK = re.compile(r"""
    (?P<num>(\d+\.\d*|\.\d+|\d+)([dDeE][+-]?\d+)?(_\w+)?)
  | (?P<dotop>\.(and|or|not|eq|ne|lt|le|gt|ge|true|false)\.)
  | (?P<name>[A-Za-z_]\w*)
  | (?P<op>\*\*|==|/=|<=|>=|[-+*/()<>,=:\[\]])
  | (?P<ws>\s+)
""", re.X | re.I)


def tokenize(s):
    out = []
    pos = 0
    while pos < len(s):
        m = TOK.match(s, pos)
        if not m:
            raise Untranslatable('fortran token at %r' % s[pos:pos + 20])
        pos = m.end()
        if m.lastgroup == 'ws':
            continue
        kind = m.lastgroup
        if kind in ('num',):
            out.append(('num', m.group('num')))
        elif kind == 'dotop':
            out.append(('op', m.group('dotop').lower()))
        elif kind == 'name':
            out.append(('name', m.group('name').lower()))
        else:
            out.append(('op', m.group('op')))
    import keyword
    out = [(k, v + '_') if k == 'name' and keyword.iskeyword(v) else (k, v) for k, v in out]
    return out


def logical_lines(src):
    """strip comments, join continuation lines"""
    lines = []
    cur = ''
    for raw in src.split('\n'):
        # strip comment (strings only occur in print statements, which are dropped anyway)
        line = raw
        if '!' in line:
            q = None
            cut = None
            for i, ch in enumerate(line):
                if q:
                    if ch == q:
                        q = None
                elif ch in '"\'':
                    q = ch
                elif ch == '!':
                    cut = i
                    break
            if cut is not None:
                line = line[:cut]
        line = line.strip()
        if not line:
            continue
        if line.startswith('&'):
            line = line[1:].lstrip()
        if line.endswith('&'):
            cur += line[:-1] + ' '
            continue
        cur += line
        lines.append(cur)
        cur = ''
    if cur:
        lines.append(cur)
    return lines


def kw(name):
    import keyword
    return name + '_' if keyword.iskeyword(name) else name


class Sub:
    def __init__(self, name, args):
        self.name = name
        self.args = args
        self.decl = {}       # name -> dict(type, intent, dims, param_value)
        self.body = []       # logical lines


def split_top(s, sep=','):
    out, depth, cur = [], 0, ''
    for ch in s:
        if ch in '([':
            depth += 1
        elif ch in ')]':
            depth -= 1
        if ch == sep and depth == 0:
            out.append(cur.strip())
            cur = ''
        else:
            cur += ch
    if cur.strip():
        out.append(cur.strip())
    return out


def parse_units(src):
    """-> (module_params {name: literal text}, [Sub])"""
    lines = logical_lines(src)
    params = {}
    subs = []
    cur = None
    in_module = False
    for ln in lines:
        low = ln.lower()
        if re.match(r'module\s+\w+', low) and not low.startswith('module procedure'):
            in_module = True
            continue
        if re.match(r'end\s*module', low):
            in_module = False
            continue
        m = re.match(r'subroutine\s+(\w+)\s*\((.*)\)\s*$', low)
        if m:
            cur = Sub(m.group(1), [kw(a.strip()) for a in m.group(2).split(',') if a.strip()])
            continue
        if re.match(r'end\s*subroutine', low):
            subs.append(cur)
            cur = None
            continue
        if low.startswith('use ') or low.startswith('implicit ') or low.startswith('contains'):
            continue
        if '::' in low and re.match(r'(real|integer|complex|logical|double)', low):
            spec, names = low.split('::', 1)
            attrs = [a.strip() for a in split_top(spec)]
            ty = attrs[0].split('(')[0].strip()
            # declared kind: every real/complex object must be double precision (kind = DP / double precision);
            # a default-kind `real :: x` stores in single precision, which the real-number model cannot express
            single = False
            if ty in ('real', 'complex'):
                kspec = attrs[0][len(ty):].replace(' ', '')
                single = kspec not in ('(kind=dp)', '(dp)', '(kind=8)', '(8)')
            intent = None
            dims = None
            isparam = False
            for a in attrs[1:]:
                if a.startswith('intent'):
                    intent = re.search(r'\(([\w ]+)\)', a).group(1).replace(' ', '')
                elif a.startswith('dimension'):
                    dims = [d.strip() for d in a[a.index('(') + 1:a.rindex(')')].split(',')]
                elif a == 'parameter':
                    isparam = True
            for item in split_top(names):
                if '=' in item:
                    nm, val = [x.strip() for x in item.split('=', 1)]
                else:
                    nm, val = item, None
                idims = dims
                mm = re.match(r'(\w+)\s*\((.*)\)$', nm)
                if mm:
                    nm = mm.group(1)
                    idims = [d.strip() for d in mm.group(2).split(',')]
                nm = kw(nm)
                d = {'type': ty, 'intent': intent, 'dims': idims, 'param': val if isparam else None, 'single': single}
                if single and cur is None:
                    raise Untranslatable('module-level object %s declared with default (single) real kind' % nm)
                if cur is None:
                    if isparam:
                        params[nm] = val
                else:
                    cur.decl[nm] = d
            continue
        if cur is not None:
            cur.body.append(ln)
        elif in_module:
            continue
    return params, subs


class ExprConv:
    """recursive-descent conversion of a Fortran expression to Python-subset text"""

    def __init__(self, toks, ctx):
        self.t = toks
        self.i = 0
        self.ctx = ctx      # FConv (knows arrays, loop vars, parameters)
        self.ty = {}        # converted text -> 'int' | 'sp' (default-real literal) | 'dp'

    def typ(self, txt):
        return self.ty.get(txt, 'dp')

    def binop(self, a, op, b):
        """Fortran typing of a binary operation.  The model computes over the reals with every real object double:
        that is faithful only if no operation is carried out in integer or single-precision arithmetic, so those are
        refused (the routine then has no generated model and its pair obligation breaks loudly)."""
        ta, tb = self.typ(a), self.typ(b)
        r = '(%s %s %s)' % (a, op, b)
        if ta == 'int' and tb == 'int':
            if op == '/':
                raise Untranslatable('integer division %s / %s' % (a, b))
            self.ty[r] = 'int'
        elif 'dp' not in (ta, tb):
            raise Untranslatable('single-precision operation %s %s %s (default-real literals / integers only)' % (a, op, b))
        return r

    def peek(self):
        return self.t[self.i] if self.i < len(self.t) else (None, None)

    def eat(self, val=None):
        k, v = self.peek()
        if val is not None and v != val:
            raise Untranslatable('expected %r got %r' % (val, v))
        self.i += 1
        return k, v

    def expr(self):
        return self.or_()

    def or_(self):
        a = self.and_()
        while self.peek()[1] == '.or.':
            self.eat()
            a = '(%s or %s)' % (a, self.and_())
        return a

    def and_(self):
        a = self.not_()
        while self.peek()[1] == '.and.':
            self.eat()
            a = '(%s and %s)' % (a, self.not_())
        return a

    def not_(self):
        if self.peek()[1] == '.not.':
            self.eat()
            return '(not %s)' % self.not_()
        return self.rel()

    REL = {'<': '<', '<=': '<=', '>': '>', '>=': '>=', '==': '==', '.lt.': '<', '.le.': '<=',
           '.gt.': '>', '.ge.': '>=', '.eq.': '=='}

    def rel(self):
        a = self.add()
        if self.peek()[1] in self.REL:
            op = self.REL[self.eat()[1]]
            b = self.add()
            return '(%s %s %s)' % (a, op, b)
        if self.peek()[1] in ('/=', '.ne.'):
            raise Untranslatable('/= comparison')
        return a

    def add(self):
        k, v = self.peek()
        if v in ('+', '-'):
            self.eat()
            a = self.mul()
            if v == '-':
                t0 = self.typ(a)
                a = '(-%s)' % a
                self.ty[a] = t0
        else:
            a = self.mul()
        while self.peek()[1] in ('+', '-'):
            op = self.eat()[1]
            b = self.mul()
            a = self.binop(a, op, b)
        return a

    def mul(self):
        a = self.pow_()
        while self.peek()[1] in ('*', '/'):
            op = self.eat()[1]
            b = self.pow_()
            a = self.binop(a, op, b)
        return a

    def pow_(self):
        a = self.primary()
        if self.peek()[1] == '**':
            self.eat()
            # exponent: right associative; unary minus allowed inside parentheses only
            b = self.pow_()
            return self.binop(a, '**', b)
        return a

    def primary(self):
        k, v = self.peek()
        if k == 'num':
            self.eat()
            r = self.ctx.number(v)
            self.ty[r] = 'int' if re.fullmatch(r'\d+', r) else ('sp' if r.startswith('f32(') else 'dp')
            return r
        if v == '(':
            self.eat()
            e = self.expr()
            self.eat(')')
            r = '(%s)' % e
            self.ty[r] = self.typ(e)
            return r
        if v == '[':
            self.eat()
            items = []
            while self.peek()[1] != ']':
                items.append(self.expr())
                if self.peek()[1] == ',':
                    self.eat()
            self.eat(']')
            return 'np.array([%s])' % ', '.join(items)
        if v in ('+', '-'):
            self.eat()
            p = self.pow_()
            r = '(-%s)' % p if v == '-' else p
            self.ty[r] = self.typ(p)
            return r
        if k == 'name':
            self.eat()
            if self.peek()[1] == '(':
                self.eat()
                args = []
                while self.peek()[1] != ')':
                    if self.peek()[1] == ':':
                        self.eat()
                        args.append(':')
                    else:
                        args.append(self.expr())
                    if self.peek()[1] == ',':
                        self.eat()
                self.eat(')')
                r = self.ctx.ref(v, args)
                self.ty[r] = self.ctx.ref_type(v, True)
                return r
            r = self.ctx.ref(v, None)
            self.ty[r] = self.ctx.ref_type(v, False)
            return r
        raise Untranslatable('fortran primary %r' % (v,))


class FConv:
    """one subroutine -> Python-subset source"""

    def __init__(self, sub, module_params, sigs):
        self.sub = sub
        self.mp = dict(module_params)
        self.sigs = sigs         # name -> (in_args, out_args, dim_args) of every subroutine
        self.loopvars = []
        self.arr2 = {}           # 2-D constant tables: name -> (d1, d2)

    def number(self, txt):
        t = txt.lower()
        if re.fullmatch(r'\d+', t):
            return t
        if 'd' in t:
            return t.replace('d', 'e')
        if '_' in t:
            return t.split('_')[0]
        return 'f32("%s")' % t          # default-real literal

    def ref_type(self, name, call):
        """'int' for integer objects, loop variables and integer-valued intrinsics, else 'dp'"""
        n = kw(name.lower())
        d = self.sub.decl.get(n)
        if d is not None:
            return 'int' if d['type'] == 'integer' else 'dp'
        if n in self.loopvars:
            return 'int'
        if call and n in ('int', 'nint', 'floor', 'ceiling', 'size', 'mod'):
            return 'int'
        if not call and n in self.mp and re.fullmatch(r'\s*\d+\s*', str(self.mp[n])):
            return 'int'
        return 'dp'

    def is_array(self, name):
        d = self.sub.decl.get(name)
        return d is not None and d['dims'] is not None

    def index(self, a):
        """Fortran 1-based subscript text -> 0-based Python subscript"""
        a = a.strip()
        while a.startswith('(') and a.endswith(')'):
            a = a[1:-1].strip()
        if a == ':':
            return ':'
        if a in self.loopvars:
            return a
        if re.fullmatch(r'\d+', a):
            return str(int(a) - 1)
        raise Untranslatable('subscript %r' % a)

    def linear(self, text, shift):
        """a loop bound (integer expression in literals, dimension names and 1-based loop variables) rewritten in the
        0-based Python loop variables (v_f = v + 1), plus `shift`"""
        toks = tokenize(text)
        coef, const, sign = {}, shift, 1
        for k, v in toks:
            if k == 'op' and v in '+-':
                sign = 1 if v == '+' else -1
            elif k == 'num' and re.fullmatch(r'\d+', v):
                const += sign * int(v)
                sign = 1
            elif k == 'name':
                coef[v] = coef.get(v, 0) + sign
                if v in self.loopvars:
                    const += sign
                sign = 1
            else:
                raise Untranslatable('loop bound %r' % text)
        terms = [(n, c) for n, c in coef.items() if c != 0]
        if not terms:
            return str(const)
        if len(terms) == 1 and terms[0][1] == 1:
            n = terms[0][0]
            return n if const == 0 else ('%s + %d' % (n, const) if const > 0 else '%s - %d' % (n, -const))
        raise Untranslatable('loop bound %r' % text)

    def ref(self, name, args):
        d = self.sub.decl.get(name)
        if args is None:
            if d is not None and d['param'] is not None:
                return ExprConv(tokenize(d['param']), self).expr()
            if d is None and name in self.mp:
                return ExprConv(tokenize(self.mp[name]), self).expr()
            return name
        if d is not None and d['dims'] is not None:
            if len(args) == 1:
                if args[0] == ':':
                    return name
                return '%s[%s]' % (name, self.index(args[0]))
            if len(args) == 2 and name in self.arr2:
                # coef(i, j)  ->  python table row j-1, column i
                return '%s[%s, %s]' % (name, self.index(args[1]), self.index(args[0]))
            if len(args) == 2:
                if args[0] == ':' and args[1] == ':':
                    return name
                return '%s[%s, %s]' % (name, self.index(args[0]), self.index(args[1]))
            raise Untranslatable('array reference %s%r' % (name, args))
        if name in INTRINSIC:
            return '%s(%s)' % (INTRINSIC[name], ', '.join(args))
        if name in ('real', 'dble'):
            if args[0].startswith('z_roots['):
                return 'np.real(%s)' % args[0]          # real part of a double complex: double
            if name == 'real' and len(args) == 1:
                raise Untranslatable('REAL(%s) without a kind converts to single precision' % args[0])
            return args[0]
        raise Untranslatable('reference %s(...)' % name)

    def conv_expr(self, text):
        ec = ExprConv(tokenize(text), self)
        e = ec.expr()
        if ec.i != len(ec.t):
            raise Untranslatable('trailing tokens in %r' % text)
        return e

    def convert(self):
        sub = self.sub
        ins, outs, dims = self.sigs[sub.name]
        for nm, d in sub.decl.items():
            if d.get('single'):
                raise Untranslatable('%s is declared with the default (single) real kind: stores round to binary32' % nm)
            if d.get('intent') == 'inout':
                raise Untranslatable('%s has intent(inout)' % nm)
        lines = ['def %s(%s):' % (sub.name, ', '.join(ins))]
        ind = 1
        # nc := length of first array argument
        arr_in = [a for a in ins if self.is_array(a)]
        for dname in dims:
            if arr_in:
                lines.append('    %s = len(%s)' % (dname, arr_in[0]))
        # local integer parameter used as a dimension (Kvsi_hydrate: NC = 8)
        for nm, d in sub.decl.items():
            if d['param'] is not None and d['type'] == 'integer':
                lines.append('    %s = %s' % (nm, d['param']))
        if getattr(self, 'init_arrays', False):
            for nm, d in sub.decl.items():
                if d['dims'] and d['intent'] != 'in' and d['type'] == 'real' and d['param'] is None:
                    dd = [x if not x.isdigit() else x for x in d['dims']]
                    if len(dd) == 1:
                        lines.append('    %s = np.zeros(%s)' % (nm, dd[0]))
                    else:
                        lines.append('    %s = np.zeros((%s, %s))' % (nm, dd[0], dd[1]))
        stack = []
        for ln in sub.body:
            low = ln.strip()
            lowl = low.lower()
            pad = '    ' * ind
            if lowl.startswith('print'):
                continue
            m = re.match(r'if\s*\((.*)\)\s*then$', lowl)
            if m:
                lines.append(pad + 'if %s:' % self.conv_expr(m.group(1)))
                ind += 1
                stack.append('if')
                continue
            m = re.match(r'else\s*if\s*\((.*)\)\s*then$', lowl)
            if m:
                lines.append('    ' * (ind - 1) + 'elif %s:' % self.conv_expr(m.group(1)))
                continue
            if lowl == 'else':
                lines.append('    ' * (ind - 1) + 'else:')
                continue
            if re.match(r'end\s*if$', lowl):
                ind -= 1
                stack.pop()
                continue
            m = re.match(r'do\s+(\w+)\s*=\s*([^,]+),\s*([^,]+)$', lowl)
            if m:
                var = m.group(1)
                lo = self.linear(m.group(2), -1)
                hi = self.linear(m.group(3), 0)
                self.loopvars.append(var)
                if lo == '0':
                    lines.append(pad + 'for %s in range(%s):' % (var, hi))
                else:
                    lines.append(pad + 'for %s in range(%s, %s):' % (var, lo, hi))
                ind += 1
                stack.append('do')
                continue
            if re.match(r'end\s*do$', lowl):
                ind -= 1
                stack.pop()
                self.loopvars.pop()
                continue
            if lowl.startswith('do '):
                raise Untranslatable('do loop header %r' % low)
            m = re.match(r'call\s+(\w+)\s*\((.*)\)$', lowl)
            if m:
                callee = m.group(1)
                if callee == 'cubic_roots':
                    actual = split_top(m.group(2))
                    lines.append(pad + '%s = cubic_roots(%s)' % (self.lhs(actual[1]), self.conv_expr(actual[0])))
                    continue
                if callee not in self.sigs:
                    raise Untranslatable('call to unknown %s' % callee)
                cins, couts, cdims = self.sigs[callee]
                full = self.sigs_order[callee]
                actual = split_top(m.group(2))
                if len(actual) != len(full):
                    raise Untranslatable('arity in call %s' % callee)
                a_in, a_out = [], []
                for formal, act in zip(full, actual):
                    if formal in cdims:
                        continue
                    if formal in couts:
                        a_out.append(act)
                    else:
                        a_in.append(self.conv_expr(act))
                tgt = ', '.join(self.lhs(o) for o in a_out)
                lines.append(pad + '%s = %s(%s)' % (tgt, callee, ', '.join(a_in)))
                continue
            if '=' in low:
                lhs, rhs = low.split('=', 1)
                lhs = lhs.strip().lower()
                m2 = re.match(r'(\w+)$', lhs)
                nm = re.match(r'(\w+)', lhs).group(1)
                rl = rhs.strip().lower()
                mm = re.match(r'reshape\s*\(\s*\[(.*)\]\s*,\s*shape\s*\(\s*(\w+)\s*\)\s*\)$', rl, re.S)
                if mm:
                    d = self.sub.decl[nm]['dims']
                    d1, d2 = int(d[0]), int(d[1])
                    flat = [self.conv_expr(x) for x in split_top(mm.group(1))]
                    if len(flat) != d1 * d2:
                        raise Untranslatable('reshape size')
                    rows = ['[%s]' % ', '.join(flat[j * d1:(j + 1) * d1]) for j in range(d2)]
                    self.arr2[nm] = (d1, d2)
                    lines.append(pad + '%s = np.array([%s])' % (nm, ', '.join(rows)))
                    continue
                rv = self.conv_expr(rhs)
                if re.fullmatch(r'\w+', rv) and self.is_array(rv):
                    rv = 'np.copy(%s)' % rv          # Fortran array assignment copies
                lines.append(pad + '%s = %s' % (self.lhs(lhs), rv))
                continue
            raise Untranslatable('statement %r' % low)
        lines.append('    return (%s)' % ', '.join(outs) if len(outs) > 1 else '    return %s' % outs[0])
        return '\n'.join(lines)

    def lhs(self, text):
        text = text.strip().lower()
        m = re.match(r'(\w+)\s*\((.*)\)$', text)
        if not m:
            return kw(text)
        nm, sub = kw(m.group(1)), m.group(2).strip()
        if sub == ':':
            return nm
        parts = split_top(sub)
        if len(parts) == 2:
            if parts[0] == ':' and parts[1] == ':':
                return nm
            return '%s[%s, %s]' % (nm, self.index(parts[0]), self.index(parts[1]))
        return '%s[%s]' % (nm, self.index(sub))


def signatures(subs):
    """name -> (in_args, out_args, dim_args) ; dim args = integer intent(in) used as a dimension"""
    sigs, order = {}, {}
    for s in subs:
        dimnames = set()
        for nm, d in s.decl.items():
            if d['dims']:
                for x in d['dims']:
                    if re.fullmatch(r'[a-z_]\w*', x):
                        dimnames.add(x)
        ins, outs, dims = [], [], []
        for a in s.args:
            d = s.decl.get(a)
            if d is None:
                raise Untranslatable('undeclared dummy %s in %s' % (a, s.name))
            if d['intent'] == 'out':
                outs.append(a)
            elif a in dimnames and d['type'] == 'integer':
                dims.append(a)
            else:
                ins.append(a)
        sigs[s.name] = (ins, outs, dims)
        order[s.name] = list(s.args)
    return sigs, order


def fortran_to_python(src, only=None, full=False):
    """-> (python source text, shapes {fname: {param: 'v'}}, sigs)"""
    mp, subs = parse_units(src)
    sigs, order = signatures(subs)
    out = []
    shapes = {}
    errors = {}
    for s in subs:
        if only is not None and s.name not in only:
            continue
        fc = FConv(s, mp, sigs)
        fc.sigs_order = order
        fc.init_arrays = full
        try:
            out.append(fc.convert())
        except Untranslatable as e:
            errors[s.name] = str(e)
            continue
        shapes[s.name] = {a: ('m' if len(s.decl[a]['dims']) == 2 else 'v') for a in sigs[s.name][0] if fc.is_array(a)}
    return '\n\n'.join(out) + '\n', shapes, sigs, order, errors
